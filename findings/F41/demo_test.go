package actor

import (
	"sync/atomic"
	"testing"
	"time"

	"github.com/kercylan98/vivid"
)

// F41: the child table is keyed by path and the child-death step deletes by the path of ANY foreign OnKilled. An actor that watches
// an actor on another system whose path equals the path of one of its own children (symmetric deployments: every node runs
// /svc/worker) loses its live child from the table when the remote namesake dies: the child is no longer reached by the kill
// fan-out — the parent is reported terminated while its descendant is still alive.
func TestF41_RemoteNamesakeDeathKeepsTheLocalChild(t *testing.T) {
	system := NewTestSystem(t)
	defer func() { _ = system.Stop() }()

	refs := make(chan vivid.ActorRef, 2)
	var childAlive atomic.Bool
	child := vivid.ActorFN(func(ctx vivid.ActorContext) {
		switch m := ctx.Message().(type) {
		case *vivid.OnLaunch:
			childAlive.Store(true)
		case *vivid.OnKilled:
			if m.Ref.Equals(ctx.Ref()) {
				childAlive.Store(false)
			}
		}
	})
	parentDead := make(chan struct{})
	p, err := system.ActorOf(vivid.ActorFN(func(ctx vivid.ActorContext) {
		switch m := ctx.Message().(type) {
		case *vivid.OnLaunch:
			c, _ := ctx.ActorOf(child, vivid.WithActorName("worker"))
			refs <- c
		case *vivid.OnKilled:
			if m.Ref.Equals(ctx.Ref()) {
				close(parentDead)
			}
		}
	}), vivid.WithActorName("f41-svc"))
	if err != nil {
		t.Fatal(err)
	}
	c := <-refs
	time.Sleep(50 * time.Millisecond)

	// what the remoting layer delivers when a watched actor on another system terminates: a system OnKilled naming it
	remote, err := NewRef("10.9.8.7:9999", c.GetPath())
	if err != nil {
		t.Fatal(err)
	}
	system.Context.tell(true, p, &vivid.OnKilled{Ref: remote})
	time.Sleep(100 * time.Millisecond)

	system.Kill(p, false, "stop the service")
	select {
	case <-parentDead:
	case <-time.After(3 * time.Second):
		t.Fatal("parent did not terminate")
	}
	time.Sleep(100 * time.Millisecond)
	if childAlive.Load() {
		t.Fatalf("the parent was reported terminated while its child %s is still alive: the death of a remote actor with the same path removed the live child from the parent's table", c.GetPath())
	}
}
