package actor

import (
	"testing"
	"time"

	"github.com/kercylan98/vivid"
)

// F33: a child fails while its supervisor is already stopping (graceful kill in progress, waiting for that child); the
// supervisor escalates, the grandparent decides an immediate Stop: the supervisor ignores the Kill (already killing), the
// child stays paused with its poison kill queued behind the pause: both hang forever, Stop of the system times out.
func TestF33_FailureEscalatedByStoppingSupervisorHangs(t *testing.T) {
	system := NewTestSystem(t)

	gate := make(chan struct{})
	inGate := make(chan struct{}, 1)
	refs := make(chan vivid.ActorRef, 2)

	child := vivid.ActorFN(func(ctx vivid.ActorContext) {
		if m, ok := ctx.Message().(string); ok {
			switch m {
			case "gate":
				inGate <- struct{}{}
				<-gate
			case "boom":
				panic("boom")
			}
		}
	})
	supervisor := vivid.ActorFN(func(ctx vivid.ActorContext) {
		if _, ok := ctx.Message().(*vivid.OnLaunch); ok {
			c, _ := ctx.ActorOf(child, vivid.WithActorName("c"))
			refs <- c
		}
	})
	_, err := system.ActorOf(vivid.ActorFN(func(ctx vivid.ActorContext) {
		if _, ok := ctx.Message().(*vivid.OnLaunch); ok {
			s, _ := ctx.ActorOf(supervisor, vivid.WithActorName("s"), vivid.WithActorSupervisionStrategy(vivid.OneForOneStrategy(vivid.SupervisionStrategyDecisionMakerFN(func(ctx vivid.SupervisionContext) (vivid.SupervisionDecision, string) {
				return vivid.SupervisionDecisionEscalate, "escalate"
			}))))
			refs <- s
		}
	}), vivid.WithActorName("g"), vivid.WithActorSupervisionStrategy(vivid.OneForOneStrategy(vivid.SupervisionStrategyDecisionMakerFN(func(ctx vivid.SupervisionContext) (vivid.SupervisionDecision, string) {
		return vivid.SupervisionDecisionStop, "stop"
	}))))
	if err != nil {
		t.Fatal(err)
	}
	a, b := <-refs, <-refs
	s, c := a, b
	if s.GetPath() != "/g/s" {
		s, c = b, a
	}

	system.Tell(c, "gate")
	<-inGate
	system.Tell(c, "boom")        // queued behind the gate
	system.Kill(s, true, "graceful") // s: killing, forwards a poison kill to c (queued behind "boom")
	time.Sleep(200 * time.Millisecond)
	close(gate) // c: boom -> failed -> paused; s (killing) escalates; g: immediate Stop of s
	time.Sleep(500 * time.Millisecond)

	if _, ok := system.actorContexts.Load(c.GetPath()); ok {
		v, _ := system.actorContexts.Load(c.GetPath())
		t.Errorf("child still registered 0.5s after the decision; paused=%v", v.(*Context).mailbox.IsPaused())
	}
	if err := system.Stop(3 * time.Second); err != nil {
		t.Errorf("system stop: %v", err)
	}
}
