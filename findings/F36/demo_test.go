package actor_test

// F36 demonstration: a Kill (system message) queued behind a Restart that is still in progress. On the tree before the fix the
// restart step ENQUEUES the OnLaunch of the new incarnation — behind the Kill. The new incarnation therefore sees OnKill and
// OnKilled without ever having seen OnLaunch ("in every incarnation an actor's behaviour sees OnLaunch before any other
// message"); the OnLaunch itself ends as a dead letter. Place at internal/actor/zz_f36_test.go and run:
//   go test -vet=off -count=1 -run TestF36_ ./internal/actor

import (
	"fmt"
	"sync"
	"testing"
	"time"

	"github.com/kercylan98/vivid"
	"github.com/kercylan98/vivid/internal/actor"
)

func TestF36_NewIncarnationSeesOnLaunchFirst(t *testing.T) {
	system := actor.NewTestSystem(t)
	defer func() { _ = system.Stop() }()

	var mu sync.Mutex
	var trace []string
	record := func(s string) { mu.Lock(); trace = append(trace, s); mu.Unlock() }
	inOnKill := make(chan struct{})
	release := make(chan struct{})
	childKilled := make(chan struct{})
	var childRef vivid.ActorRef
	var once sync.Once
	refReady := make(chan struct{})

	_, err := system.ActorOf(vivid.ActorFN(func(ctx vivid.ActorContext) {
		switch m := ctx.Message().(type) {
		case *vivid.OnLaunch:
			ref, err := ctx.ActorOf(vivid.ActorFN(func(ctx vivid.ActorContext) {
				switch ctx.Message().(type) {
				case *vivid.OnLaunch:
					record("OnLaunch")
				case string:
					record("boom")
					panic("boom")
				case *vivid.OnKill:
					record("OnKill")
					// the first OnKill belongs to the restart: hold it so that a Kill can be queued behind the restart
					once.Do(func() { close(inOnKill); <-release })
				case *vivid.OnKilled:
					record("OnKilled")
				}
			}))
			if err != nil {
				panic(err)
			}
			childRef = ref
			close(refReady)
		case *vivid.OnKilled:
			if childRef != nil && m.Ref.Equals(childRef) {
				close(childKilled)
			}
		}
	}), vivid.WithActorSupervisionStrategy(vivid.OneForOneStrategy(
		vivid.SupervisionStrategyDecisionMakerFN(func(ctx vivid.SupervisionContext) (vivid.SupervisionDecision, string) {
			return vivid.SupervisionDecisionRestart, "restart"
		}))))
	if err != nil {
		t.Fatal(err)
	}
	<-refReady
	system.Tell(childRef, "boom")
	select {
	case <-inOnKill:
	case <-time.After(3 * time.Second):
		t.Fatal("restart did not start")
	}
	system.Kill(childRef, false, "kill behind the restart") // queued behind the Restart that is being handled
	time.Sleep(50 * time.Millisecond)
	close(release)
	select {
	case <-childKilled:
	case <-time.After(3 * time.Second):
		t.Fatal("child was not killed")
	}
	time.Sleep(50 * time.Millisecond)
	mu.Lock()
	defer mu.Unlock()
	t.Logf("trace: %v", trace)
	// incarnations are separated by the OnKilled that ends one; each must start with OnLaunch
	start := true
	for i, m := range trace {
		if start && m != "OnLaunch" {
			t.Fatalf("incarnation starting at position %d begins with %s, not OnLaunch: %s", i, m, fmt.Sprint(trace))
		}
		start = m == "OnKilled"
	}
}
