package actor_test

import (
	"fmt"
	"sync"
	"sync/atomic"
	"testing"
	"time"

	"github.com/kercylan98/vivid"
	"github.com/kercylan98/vivid/internal/actor"
	"github.com/kercylan98/vivid/pkg/log"
)

func TestScratch_UserBeforeOnLaunch(t *testing.T) {
	sys := actor.NewSystem(vivid.WithActorSystemLogger(log.NewTextLogger(log.WithLevel(log.LevelError))))
	if err := sys.Start(); err != nil {
		t.Fatal(err)
	}
	defer sys.Stop()

	var cur atomic.Int64
	var stop atomic.Bool
	var wg sync.WaitGroup
	for g := 0; g < 6; g++ {
		wg.Add(1)
		go func() {
			defer wg.Done()
			for !stop.Load() {
				i := cur.Load()
				ref, err := sys.CreateRef("localhost", fmt.Sprintf("/r%d", i))
				if err != nil {
					panic(err)
				}
				sys.Tell(ref, "early")
			}
		}()
	}
	var violations atomic.Int64
	deadline := time.Now().Add(20 * time.Second)
	n := 0
	for time.Now().Before(deadline) && violations.Load() == 0 {
		n++
		i := int64(n)
		first := true
		done := make(chan struct{})
		cur.Store(i)
		ref, err := sys.ActorOf(vivid.ActorFN(func(ctx vivid.ActorContext) {
			if first {
				first = false
				if _, ok := ctx.Message().(*vivid.OnLaunch); !ok {
					violations.Add(1)
					t.Logf("iteration %d: first message seen by behaviour is %T(%v), not OnLaunch", i, ctx.Message(), ctx.Message())
				}
				close(done)
			}
		}), vivid.WithActorName(fmt.Sprintf("r%d", i)))
		if err != nil {
			t.Fatal(err)
		}
		<-done
		sys.Kill(ref, false)
	}
	stop.Store(true)
	wg.Wait()
	t.Logf("iterations=%d violations=%d", n, violations.Load())
	if violations.Load() > 0 {
		t.Fail()
	}
}
