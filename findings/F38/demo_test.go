package actor_test

// F38 demonstration: a watcher that re-uses the name of a dead watcher is never notified. The target de-duplicates watch
// requests by "address@path" and keeps the FIRST reference object; a local reference memoises the mailbox it resolved to. W1
// (named "w") watches T and terminates; W2 is spawned under the same name and watches T: the request is dropped as a duplicate
// and the table keeps W1's reference, pinned to W1's dead mailbox. When T terminates its OnKilled goes to that mailbox and is
// dead-lettered: W2, which watches T, never receives it.
//   go test -vet=off -count=1 -run TestF38_ ./internal/actor

import (
	"testing"
	"time"

	"github.com/kercylan98/vivid"
	"github.com/kercylan98/vivid/internal/actor"
	"github.com/kercylan98/vivid/pkg/log"
)

func TestF38_WatcherReusingANameIsNotified(t *testing.T) {
	sys := actor.NewSystem(vivid.WithActorSystemLogger(log.NewTextLogger(log.WithLevel(log.LevelError))))
	if err := sys.Start(); err != nil {
		t.Fatal(err)
	}
	defer func() { _ = sys.Stop(5 * time.Second) }()

	target, err := sys.ActorOf(vivid.ActorFN(func(ctx vivid.ActorContext) {}), vivid.WithActorName("f38-target"))
	if err != nil {
		t.Fatal(err)
	}
	type watcher struct {
		launched chan struct{}
		dead     chan struct{}
		notified chan struct{}
	}
	spawn := func() (*watcher, vivid.ActorRef) {
		w := &watcher{launched: make(chan struct{}), dead: make(chan struct{}), notified: make(chan struct{}, 4)}
		ref, err := sys.ActorOf(vivid.ActorFN(func(ctx vivid.ActorContext) {
			switch m := ctx.Message().(type) {
			case *vivid.OnLaunch:
				ctx.Watch(target)
				close(w.launched)
			case *vivid.OnKilled:
				if m.Ref.Equals(ctx.Ref()) {
					close(w.dead)
				} else if m.Ref.Equals(target) {
					w.notified <- struct{}{}
				}
			}
		}), vivid.WithActorName("f38-w"))
		if err != nil {
			t.Fatal(err)
		}
		return w, ref
	}
	wait := func(ch chan struct{}, what string) {
		select {
		case <-ch:
		case <-time.After(3 * time.Second):
			t.Fatalf("timeout waiting for %s", what)
		}
	}
	w1, ref1 := spawn()
	wait(w1.launched, "first watcher's launch")
	time.Sleep(50 * time.Millisecond) // let the watch request reach the target
	sys.Kill(ref1, false, "first watcher goes away")
	wait(w1.dead, "first watcher's termination")
	time.Sleep(50 * time.Millisecond) // its name is released after the notification

	w2, _ := spawn()
	wait(w2.launched, "second watcher's launch")
	time.Sleep(50 * time.Millisecond)

	sys.Kill(target, false, "target terminates")
	select {
	case <-w2.notified:
	case <-time.After(2 * time.Second):
		t.Fatalf("the second watcher (same name as a dead one) watches the target but never received its OnKilled")
	}
}
