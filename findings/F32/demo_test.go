package actor

import (
	"errors"
	"sync/atomic"
	"testing"
	"time"

	"github.com/kercylan98/vivid"
)

// F32: a zombie is released (cleanup + termination notice to its parent) by ANY OnKilled it receives, e.g. the death of
// an actor it was watching, although nobody killed it.
func TestF32_ZombieReleasedByDeathOfWatchedActor(t *testing.T) {
	system := NewTestSystem(t)
	defer func() { _ = system.Stop(time.Second * 5) }()

	var parentSawZombieKilled atomic.Int32
	refs := make(chan vivid.ActorRef, 2)
	watched := make(chan struct{}, 1)

	other, err := system.ActorOf(vivid.ActorFN(func(ctx vivid.ActorContext) {}), vivid.WithActorName("other"))
	if err != nil {
		t.Fatal(err)
	}

	zombieActor := vivid.NewComplexCombinationActor(
		vivid.NewRestartedActor(func(ctx vivid.RestartContext) error { return errors.New("restore failed") }),
		vivid.ActorFN(func(ctx vivid.ActorContext) {
			switch m := ctx.Message().(type) {
			case *vivid.OnLaunch:
				ctx.Watch(other)
				watched <- struct{}{}
			case string:
				if m == "boom" {
					panic("boom")
				}
			}
		}),
	)

	_, err = system.ActorOf(vivid.ActorFN(func(ctx vivid.ActorContext) {
		switch m := ctx.Message().(type) {
		case *vivid.OnLaunch:
			z, _ := ctx.ActorOf(zombieActor, vivid.WithActorName("z"))
			refs <- z
		case *vivid.OnKilled:
			if !m.Ref.Equals(ctx.Ref()) {
				parentSawZombieKilled.Add(1)
			}
		}
	}), vivid.WithActorName("p"), vivid.WithActorSupervisionStrategy(vivid.OneForOneStrategy(vivid.SupervisionStrategyDecisionMakerFN(func(ctx vivid.SupervisionContext) (vivid.SupervisionDecision, string) {
		return vivid.SupervisionDecisionRestart, "restart"
	}))))
	if err != nil {
		t.Fatal(err)
	}
	z := <-refs
	<-watched
	time.Sleep(100 * time.Millisecond)

	system.Tell(z, "boom")
	time.Sleep(300 * time.Millisecond)
	v, ok := system.actorContexts.Load(z.GetPath())
	if !ok || !v.(*Context).zombie {
		t.Fatal("setup: z is not a registered zombie")
	}

	// the watched actor dies; nobody kills the zombie
	system.Kill(other, false, "bye")
	time.Sleep(500 * time.Millisecond)
	if n := parentSawZombieKilled.Load(); n != 0 {
		t.Errorf("parent received %d termination notice(s) for the zombie although nobody killed it", n)
	}
	if _, ok := system.actorContexts.Load(z.GetPath()); !ok {
		t.Errorf("the zombie was unregistered by the death of an actor it watched")
	}
}
