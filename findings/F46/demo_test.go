package actor_test

// F46 demonstration: messages are lost on a link the network never broke. The handshake arms ABSOLUTE 10 s read and write
// deadlines on every remoting connection and never clears them. Ten seconds after a connection was established the reader's
// next read fails with an i/o timeout and the connection actor dies — with frames the sender had already written (successfully)
// still unread in the socket buffers; the sender notices only through its own stale write deadline, redials and carries on.
// The frames in between are gone: never delivered, never reported. Under a sustained stream (64 KiB messages back to back)
// this happens at every 10 s mark.
//   go test -vet=off -count=1 -run TestF46_ ./internal/actor      (runs ~13 s)

import (
	"sync/atomic"
	"testing"
	"time"

	"github.com/kercylan98/vivid"
	"github.com/kercylan98/vivid/internal/actor"
	"github.com/kercylan98/vivid/internal/messages"
)

type f46Blob struct {
	Seq  uint32
	Data []byte
}

func init() {
	vivid.RegisterCustomMessage[*f46Blob]("f46Blob",
		func(message any, reader *messages.Reader, codec messages.Codec) error {
			m := message.(*f46Blob)
			return reader.ReadInto(&m.Seq, &m.Data)
		},
		func(message any, writer *messages.Writer, codec messages.Codec) error {
			m := message.(*f46Blob)
			return writer.WriteFrom(m.Seq, m.Data)
		})
}

func TestF46_SustainedStreamLosesNothingOnAHealthyLink(t *testing.T) {
	system1 := actor.NewTestSystem(t, vivid.WithActorSystemRemoting("127.0.0.1:28731"))
	system2 := actor.NewTestSystem(t, vivid.WithActorSystemRemoting("127.0.0.1:28732"))
	defer func() {
		_ = system1.Stop()
		_ = system2.Stop()
	}()
	var received, gaps, lost atomic.Int64
	var next atomic.Uint32
	sink, err := system2.ActorOf(vivid.ActorFN(func(ctx vivid.ActorContext) {
		if m, ok := ctx.Message().(*f46Blob); ok {
			received.Add(1)
			if want := next.Load(); m.Seq != want {
				gaps.Add(1)
				if m.Seq > want {
					lost.Add(int64(m.Seq - want))
				}
			}
			next.Store(m.Seq + 1)
		}
	}), vivid.WithActorName("f46-sink"))
	if err != nil {
		t.Fatal(err)
	}
	remote := sink.Clone()
	payload := make([]byte, 64<<10)
	var sent uint32
	deadline := time.Now().Add(11500 * time.Millisecond)
	for time.Now().Before(deadline) {
		system1.Tell(remote, &f46Blob{Seq: sent, Data: payload})
		sent++
	}
	// let the receiver drain
	for i := 0; i < 100 && received.Load() < int64(sent); i++ {
		time.Sleep(50 * time.Millisecond)
	}
	if r := received.Load(); r != int64(sent) || gaps.Load() != 0 {
		t.Fatalf("sent %d messages over a healthy link, received %d, %d gap(s), %d message(s) missing in the gaps: frames in flight when the handshake's stale deadline expired were lost without any report", sent, r, gaps.Load(), lost.Load())
	}
}
