package actor_test

import (
	"sync/atomic"
	"testing"
	"time"

	"github.com/kercylan98/vivid"
)

// O6: same-name successor spawned by the parent on OnKilled(child) vs the predecessor's Clear (which runs after the parent was notified)
func TestScratch_SuccessorRace(t *testing.T) {
	system := scratchSystem(t)
	defer func() { _ = system.Stop() }()

	const rounds = 30000
	var schedErr, lostJob, spawned atomic.Int32
	done := make(chan struct{})

	var child func() vivid.Actor
	child = func() vivid.Actor {
		return vivid.ActorFN(func(ctx vivid.ActorContext) {
			switch ctx.Message().(type) {
			case *vivid.OnLaunch:
				if err := ctx.Scheduler().Loop(ctx.Ref(), time.Hour, "tick", vivid.WithSchedulerReference("tick")); err != nil {
					schedErr.Add(1)
				}
				ctx.TellSelf("die")
			case string:
				// is my job still there?
				if err := ctx.Scheduler().Cancel("tick"); err != nil {
					lostJob.Add(1)
				}
				_ = ctx.Scheduler().Loop(ctx.Ref(), time.Hour, "tick", vivid.WithSchedulerReference("tick"))
				ctx.Kill(ctx.Ref(), false, "next")
			}
		})
	}

	_, err := system.ActorOf(vivid.ActorFN(func(ctx vivid.ActorContext) {
		switch m := ctx.Message().(type) {
		case *vivid.OnLaunch:
			_, _ = ctx.ActorOf(child(), vivid.WithActorName("w"))
		case *vivid.OnKilled:
			if m.Ref.Equals(ctx.Ref()) {
				return
			}
			if spawned.Add(1) >= rounds {
				select {
				case <-done:
				default:
					close(done)
				}
				return
			}
			if _, err := ctx.ActorOf(child(), vivid.WithActorName("w")); err != nil {
				t.Errorf("respawn: %v", err)
			}
		}
	}), vivid.WithActorName("p"))
	if err != nil {
		t.Fatal(err)
	}
	select {
	case <-done:
	case <-time.After(60 * time.Second):
		t.Log("timeout; rounds so far", spawned.Load())
	}
	t.Logf("rounds=%d scheduleErrors(job already exists)=%d jobsDeletedByPredecessor=%d", spawned.Load(), schedErr.Load(), lostJob.Load())
	if schedErr.Load() != 0 || lostJob.Load() != 0 {
		t.Fatalf("successor collided with predecessor's not-yet-cleared job")
	}
}
