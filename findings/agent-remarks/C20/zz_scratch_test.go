package actor_test

import (
	"math"
	"sync/atomic"
	"testing"
	"time"

	"github.com/kercylan98/vivid"
	"github.com/kercylan98/vivid/internal/actor"
	"github.com/kercylan98/vivid/pkg/log"
)

func scratchSystem(t *testing.T) *actor.TestSystem {
	return actor.NewTestSystem(t, vivid.WithActorSystemLogger(log.NewTextLogger(log.WithLevel(log.LevelError))))
}

// O1: a Loop with an "infinite" interval overflows the next-run computation
func TestScratch_HugeLoopInterval(t *testing.T) {
	system := scratchSystem(t)
	defer func() { _ = system.Stop() }()

	var got atomic.Int32
	armed := make(chan struct{})
	_, err := system.ActorOf(vivid.ActorFN(func(ctx vivid.ActorContext) {
		switch ctx.Message().(type) {
		case *vivid.OnLaunch:
			t.Log("loop err:", ctx.Scheduler().Loop(ctx.Ref(), time.Duration(math.MaxInt64), "never"))
			close(armed)
		case int:
			got.Add(1)
		}
	}))
	if err != nil {
		t.Fatal(err)
	}
	<-armed
	// another actor's ordinary Once
	_, err = system.ActorOf(vivid.ActorFN(func(ctx vivid.ActorContext) {
		switch ctx.Message().(type) {
		case *vivid.OnLaunch:
			t.Log("once err:", ctx.Scheduler().Once(ctx.Ref(), 20*time.Millisecond, 1))
		case int:
			got.Add(1)
		}
	}))
	if err != nil {
		t.Fatal(err)
	}
	time.Sleep(time.Second)
	if got.Load() != 1 {
		t.Fatalf("other actor's Once(20ms) delivered %d times within 1s", got.Load())
	}
}

// O4: job key = path + ":" + reference is ambiguous when names / references contain ':'
func TestScratch_ColonAmbiguity(t *testing.T) {
	system := scratchSystem(t)
	defer func() { _ = system.Stop() }()

	res := make(chan error, 2)
	var second atomic.Int32
	_, err := system.ActorOf(vivid.ActorFN(func(ctx vivid.ActorContext) {
		switch ctx.Message().(type) {
		case *vivid.OnLaunch:
			res <- ctx.Scheduler().Loop(ctx.Ref(), 20*time.Millisecond, 1, vivid.WithSchedulerReference("b:c"))
		}
	}), vivid.WithActorName("a"))
	if err != nil {
		t.Fatal(err)
	}
	if e := <-res; e != nil {
		t.Fatal(e)
	}
	ref2, err := system.ActorOf(vivid.ActorFN(func(ctx vivid.ActorContext) {
		switch ctx.Message().(type) {
		case *vivid.OnLaunch:
			res <- ctx.Scheduler().Loop(ctx.Ref(), 20*time.Millisecond, 2, vivid.WithSchedulerReference("c"))
		case int:
			second.Add(1)
		}
	}), vivid.WithActorName("a:b"))
	if err != nil {
		t.Fatal(err)
	}
	t.Log("second actor path:", ref2.GetPath())
	e := <-res
	time.Sleep(200 * time.Millisecond)
	t.Logf("second actor's Loop: err=%v deliveries=%d", e, second.Load())
	if e != nil || second.Load() == 0 {
		t.Fatalf("second actor (%s) could not run its own Loop \"c\": err=%v deliveries=%d", ref2.GetPath(), e, second.Load())
	}
}

// O7: WithScheduleOptions replaces the defaults wholesale (nil Location, empty Reference)
func TestScratch_WithScheduleOptionsCron(t *testing.T) {
	system := scratchSystem(t)
	defer func() { _ = system.Stop() }()

	var got atomic.Int32
	res := make(chan error, 1)
	_, err := system.ActorOf(vivid.ActorFN(func(ctx vivid.ActorContext) {
		switch ctx.Message().(type) {
		case *vivid.OnLaunch:
			func() {
				defer func() {
					if r := recover(); r != nil {
						t.Log("panic:", r)
						res <- nil
					}
				}()
				res <- ctx.Scheduler().Cron(ctx.Ref(), "* * * * * *", 1, vivid.WithScheduleOptions(vivid.ScheduleOptions{Reference: "x"}))
			}()
		case int:
			got.Add(1)
		}
	}))
	if err != nil {
		t.Fatal(err)
	}
	e := <-res
	time.Sleep(2500 * time.Millisecond)
	t.Logf("cron err=%v deliveries=%d", e, got.Load())
	if e == nil && got.Load() == 0 {
		t.Fatalf("Cron accepted (nil error) but never fired")
	}
}
