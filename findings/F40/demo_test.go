package actor

import (
	"sync/atomic"
	"testing"
	"time"

	"github.com/kercylan98/vivid"
)

// F40: a Kill that reaches an actor while it is in the middle of a supervised restart (state killing, waiting for its children to
// terminate) is lost. onKill loses CAS(running→killing), forwards the kill to the children and returns; when the children are
// gone the restart completes and the actor is running again — it was killed and never terminated, nobody is ever told.
func TestF40_KillDuringRestartTerminatesTheActor(t *testing.T) {
	system := NewTestSystem(t)
	defer func() { _ = system.Stop() }()

	refs := make(chan vivid.ActorRef, 1)
	childStopping := make(chan struct{})
	releaseChild := make(chan struct{})
	var launches atomic.Int32
	slowChild := vivid.ActorFN(func(ctx vivid.ActorContext) {
		if _, ok := ctx.Message().(*vivid.OnKill); ok {
			select {
			case <-childStopping:
			default:
				close(childStopping)
			}
			<-releaseChild
		}
	})
	a := vivid.ActorFN(func(ctx vivid.ActorContext) {
		switch m := ctx.Message().(type) {
		case *vivid.OnLaunch:
			if launches.Add(1) == 1 {
				_, _ = ctx.ActorOf(slowChild, vivid.WithActorName("c"))
			}
		case string:
			if m == "boom" {
				panic("boom")
			}
		}
	})
	_, err := system.ActorOf(vivid.ActorFN(func(ctx vivid.ActorContext) {
		if _, ok := ctx.Message().(*vivid.OnLaunch); ok {
			r, _ := ctx.ActorOf(a, vivid.WithActorName("a"))
			refs <- r
		}
	}), vivid.WithActorName("f40-p"), vivid.WithActorSupervisionStrategy(vivid.OneForOneStrategy(vivid.SupervisionStrategyDecisionMakerFN(func(ctx vivid.SupervisionContext) (vivid.SupervisionDecision, string) {
		return vivid.SupervisionDecisionRestart, "restart"
	}))))
	if err != nil {
		t.Fatal(err)
	}
	aRef := <-refs
	time.Sleep(50 * time.Millisecond)

	system.Tell(aRef, "boom") // a fails, is restarted: kills c and waits for it
	select {
	case <-childStopping:
	case <-time.After(3 * time.Second):
		t.Fatal("setup: the child was never asked to stop")
	}
	system.Kill(aRef, false, "explicit kill while restarting")
	time.Sleep(100 * time.Millisecond)
	close(releaseChild)

	deadline := time.Now().Add(2 * time.Second)
	gone := false
	for time.Now().Before(deadline) {
		if _, ok := system.actorContexts.Load(aRef.GetPath()); !ok {
			gone = true
			break
		}
		time.Sleep(10 * time.Millisecond)
	}
	if !gone {
		t.Fatalf("the actor was killed while restarting and never terminated (launches=%d): it is still registered, the kill was lost", launches.Load())
	}
}
