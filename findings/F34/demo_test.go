package actor_test

// F34 demonstration: on the tree before the fix both tests fail (the user message is swallowed by the root/guard actor;
// Kill through a reference to an unregistered path stops the root and with it every actor). Place this file at
// internal/actor/zz_f34_test.go and run: go test -vet=off -count=1 -run TestF34_ ./internal/actor

import (
	"testing"
	"time"

	"github.com/kercylan98/vivid"
	"github.com/kercylan98/vivid/internal/actor"
	"github.com/kercylan98/vivid/pkg/ves"
	"github.com/stretchr/testify/assert"
)

func TestF34_NeverExistedIsDeadLettered(t *testing.T) {
	system := actor.NewTestSystem(t)
	defer func() { assert.NoError(t, system.Stop()) }()
	waitSub := make(chan struct{})
	got := make(chan ves.DeathLetterEvent, 10)
	_, err := system.ActorOf(vivid.ActorFN(func(ctx vivid.ActorContext) {
		switch m := ctx.Message().(type) {
		case *vivid.OnLaunch:
			ctx.EventStream().Subscribe(ctx, ves.DeathLetterEvent{})
			close(waitSub)
		case ves.DeathLetterEvent:
			got <- m
		}
	}))
	assert.NoError(t, err)
	<-waitSub
	ref, err := actor.NewRef(system.Ref().GetAddress(), "/never-existed")
	assert.NoError(t, err)
	system.Tell(ref, "hello")
	select {
	case ev := <-got:
		assert.Equal(t, "hello", ev.Envelope.Message())
	case <-time.After(2 * time.Second):
		t.Fatalf("user message to a never-existing path was neither processed nor dead-lettered")
	}
}

func TestF34_KillOfUnregisteredPathLeavesOthersAlone(t *testing.T) {
	system := actor.NewTestSystem(t)
	ref, err := actor.NewRef(system.Ref().GetAddress(), "/never-existed")
	assert.NoError(t, err)
	alive, err := system.ActorOf(vivid.ActorFN(func(ctx vivid.ActorContext) {}))
	assert.NoError(t, err)
	system.Kill(ref, false, "stale ref")
	time.Sleep(300 * time.Millisecond)
	_, err = system.Ping(alive, time.Second)
	assert.NoError(t, err, "Kill of a non-existing path must not affect other actors")
	_ = system.Stop()
}
