package actor_test

// F43 demonstration: with remoting disabled, the mailbox lookup answers a reference to another address with the ROOT's own
// mailbox. A Kill sent through such a reference is consumed by the root as a kill of itself: the whole actor system terminates
// because somebody tried to kill an actor on a node this system cannot even reach. (Same hazard as the unknown local path
// repaired earlier; the remote branch was not covered.)
//   go test -vet=off -count=1 -run TestF43_ ./internal/actor

import (
	"testing"
	"time"

	"github.com/kercylan98/vivid"
	"github.com/kercylan98/vivid/internal/actor"
	"github.com/kercylan98/vivid/pkg/log"
)

func TestF43_KillOfAnUnreachableRemoteRefDoesNotKillTheSystem(t *testing.T) {
	sys := actor.NewSystem(vivid.WithActorSystemLogger(log.NewTextLogger(log.WithLevel(log.LevelError))))
	if err := sys.Start(); err != nil {
		t.Fatal(err)
	}
	defer func() { _ = sys.Stop(2 * time.Second) }()
	dead := make(chan struct{})
	_, err := sys.ActorOf(vivid.ActorFN(func(ctx vivid.ActorContext) {
		if m, ok := ctx.Message().(*vivid.OnKilled); ok && m.Ref.Equals(ctx.Ref()) {
			close(dead)
		}
	}), vivid.WithActorName("f43-bystander"))
	if err != nil {
		t.Fatal(err)
	}
	remote, err := sys.CreateRef("10.9.8.7:9999", "/somebody/else")
	if err != nil {
		t.Fatal(err)
	}
	sys.Kill(remote, false, "kill an actor on another node")
	select {
	case <-dead:
		t.Fatalf("a Kill addressed to %s terminated a local bystander: the root consumed the kill as its own", remote)
	case <-time.After(500 * time.Millisecond):
	}
	if _, err := sys.ActorOf(vivid.ActorFN(func(ctx vivid.ActorContext) {})); err != nil {
		t.Fatalf("the system no longer accepts spawns after a Kill addressed to another node: %v", err)
	}
}
