package actor_test

// F44 demonstration: watching the root crashes the process. The root's parent field is a nil *Ref; onWatch compares the requester
// with it through Ref.Equals(other), whose nil test `other == nil` is false for a typed nil inside the interface, and which then
// calls other.GetAddress() on the nil pointer — in the root's mailbox goroutine, outside any recover: SIGSEGV.
// `ctx.Watch(ctx.Parent())` from any top-level actor is enough.
//   go test -vet=off -count=1 -run TestF44_ ./internal/actor

import (
	"testing"

	"github.com/kercylan98/vivid/internal/actor"
)

func TestF44_EqualsWithATypedNilReference(t *testing.T) {
	ref, err := actor.NewRef("127.0.0.1:8080", "/a")
	if err != nil {
		t.Fatal(err)
	}
	var none *actor.Ref
	defer func() {
		if r := recover(); r != nil {
			t.Fatalf("Ref.Equals dereferenced a typed-nil reference (this is what the root does for every Watch request): %v", r)
		}
	}()
	if ref.Equals(none) {
		t.Fatal("a reference equals nothing")
	}
}
