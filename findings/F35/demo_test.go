package actor_test

// F35 demonstration: Stop issued while Start is still running its start-up chain. On the tree before the fix Stop sees
// status == start, flips it to stop, finds no root context yet (nil) and returns success without stopping anything; Start then
// goes on to spawn the root actor: the system is "stopped" and running at the same time, its guardian goroutine waits for a
// cancellation that never comes. Place this file at internal/actor/zz_f35_test.go and run:
//   go test -vet=off -count=1 -run TestF35_ ./internal/actor
// Before the fix: fails (about 60 of 300 rounds). With only "Start locks after the status flip": still 6 of 300. After: passes.

import (
	"errors"
	"runtime"
	"sync"
	"testing"
	"time"

	"github.com/kercylan98/vivid"
	"github.com/kercylan98/vivid/internal/actor"
	"github.com/kercylan98/vivid/pkg/log"
)

func TestF35_StopDuringStartStopsTheSystem(t *testing.T) {
	bad := 0
	const rounds = 300
	for i := 0; i < rounds; i++ {
		sys := actor.NewSystem(vivid.WithActorSystemLogger(log.NewTextLogger(log.WithLevel(log.LevelError))))
		var wg sync.WaitGroup
		var startErr, stopErr error
		wg.Add(2)
		go func() {
			defer wg.Done()
			startErr = sys.Start()
		}()
		go func() {
			defer wg.Done()
			// the first Stop that does not say "not started" is the one that races the start-up chain
			for {
				stopErr = sys.Stop(2 * time.Second)
				if !errors.Is(stopErr, vivid.ErrorActorSystemNotStarted) {
					return
				}
				runtime.Gosched()
			}
		}()
		wg.Wait()
		if startErr != nil || stopErr != nil {
			continue // Start failed or Stop reported a failure: not the case of interest
		}
		// Stop returned success: the system must be stopped — spawning must be refused
		time.Sleep(5 * time.Millisecond)
		if _, err := sys.ActorOf(vivid.ActorFN(func(ctx vivid.ActorContext) {})); err == nil {
			bad++
			_ = sys.Stop(time.Second)
		}
	}
	if bad > 0 {
		t.Fatalf("in %d of %d rounds Stop returned nil while Start was in progress and the system kept running (ActorOf still succeeds)", bad, rounds)
	}
}
