package actor

import (
	"errors"
	"sync/atomic"
	"testing"
	"time"

	"github.com/kercylan98/vivid"
)

// F39: a zombie (restart hook failed) is released by the termination confirmation that doKill produces for it; the zombie branch
// has no one-shot guard (a healthy actor wins CAS(running→killing) exactly once, a zombie skips the CAS). A second Kill that
// reaches the zombie's mailbox — the reference ActorOf returned memoises it — runs the release again: the watchers and the
// parent receive a second OnKilled, the ActorKilledEvent is published twice and the registry entry under the path is deleted
// again (it may by then belong to a new actor of the same name).
func TestF39_ZombieIsReportedTerminatedOnce(t *testing.T) {
	system := NewTestSystem(t)
	defer func() { _ = system.Stop() }()

	var restarted atomic.Int32
	refs := make(chan vivid.ActorRef, 1)
	zombieActor := vivid.NewComplexCombinationActor(
		vivid.NewRestartedActor(func(ctx vivid.RestartContext) error {
			restarted.Add(1)
			return errors.New("restore failed")
		}),
		vivid.ActorFN(func(ctx vivid.ActorContext) {
			if m, ok := ctx.Message().(string); ok && m == "boom" {
				panic("boom")
			}
		}),
	)
	var parentSaw atomic.Int32
	_, err := system.ActorOf(vivid.ActorFN(func(ctx vivid.ActorContext) {
		switch m := ctx.Message().(type) {
		case *vivid.OnLaunch:
			z, _ := ctx.ActorOf(zombieActor, vivid.WithActorName("z"))
			refs <- z
		case *vivid.OnKilled:
			if !m.Ref.Equals(ctx.Ref()) {
				parentSaw.Add(1)
			}
		}
	}), vivid.WithActorName("f39-p"), vivid.WithActorSupervisionStrategy(vivid.OneForOneStrategy(vivid.SupervisionStrategyDecisionMakerFN(func(ctx vivid.SupervisionContext) (vivid.SupervisionDecision, string) {
		return vivid.SupervisionDecisionRestart, "restart"
	}))))
	if err != nil {
		t.Fatal(err)
	}
	z := <-refs

	var watcherSaw atomic.Int32
	_, err = system.ActorOf(vivid.ActorFN(func(ctx vivid.ActorContext) {
		switch m := ctx.Message().(type) {
		case *vivid.OnLaunch:
			ctx.Watch(z)
		case *vivid.OnKilled:
			if m.Ref.Equals(z) {
				watcherSaw.Add(1)
			}
		}
	}), vivid.WithActorName("f39-w"))
	if err != nil {
		t.Fatal(err)
	}
	time.Sleep(100 * time.Millisecond)

	system.Tell(z, "boom")
	deadline := time.Now().Add(3 * time.Second)
	for restarted.Load() < 1 && time.Now().Before(deadline) {
		time.Sleep(10 * time.Millisecond)
	}
	time.Sleep(100 * time.Millisecond)
	v, ok := system.actorContexts.Load(z.GetPath())
	if !ok || !v.(*Context).zombie {
		t.Fatal("setup: z did not become a zombie")
	}

	// two kills through the same reference (an impatient caller, or an explicit Kill racing the parent's stop)
	system.Kill(z, false, "first")
	system.Kill(z, false, "second")
	time.Sleep(300 * time.Millisecond)
	if w, p := watcherSaw.Load(), parentSaw.Load(); w != 1 || p != 1 {
		t.Fatalf("the zombie's termination was reported %d time(s) to its watcher and %d time(s) to its parent, want exactly once each", w, p)
	}
}
