#!/bin/bash
# Regenerate DESIGN.md = docs/design_head.md + generated §3 + docs/design_tail.md + docs/design_seeded.md (if present)
cd /verif
{ cat docs/design_head.md; bin/vcheck describe witness/RESULTS.json; cat docs/design_tail.md; [ -f docs/design_seeded.md ] && cat docs/design_seeded.md; } > DESIGN.md
wc -l DESIGN.md
