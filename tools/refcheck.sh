#!/bin/bash
# refcheck.sh <Cxx> <K> — apply a behaviour-preserving refactoring (from /tmp/refac/<Cxx>.out/<K>/patch.diff) to a scratch copy of /repo
# and run all checks on it: any violation is a false alarm to be analysed. The scratch copy is removed afterwards.
P=$1; K=$2; D=${REFDIR:-/tmp/refac}/$P.out/$K; W=/tmp/vw/refac_$P$K
rm -rf $W; mkdir -p $W; rsync -a --exclude .git /repo/ $W/
(cd $W && patch -p1 -s --no-backup-if-mismatch < $D/patch.diff) || { echo "PATCH FAILED"; rm -rf $W; exit 1; }
(cd $W && GOFLAGS=-mod=mod GOPROXY=off go build ./... 2>&1 | head -3)
/verif/bin/vcheck -repo $W -no-evidence -prop all 2>&1 | grep -E '^   (violated|undecided)|^property .* [1-9][0-9]* violations' | cut -c1-${3:-300}
[ -n "$KEEP" ] || rm -rf $W
