#!/bin/bash
# seedkeep.sh <Cxx> <A|B> <name> <rules,comma|-> <initially: caught|missed> <needs> — store a verified seeded change under /verif/seeded/<name>/
P=$1; V=$2; NAME=$3; RULES=$4; INIT=$5; NEEDS=$6; D=/tmp/seed/$P.out/$V; T=/verif/seeded/$NAME
mkdir -p $T; cp $D/patch.diff $T/patch.diff; cp $D/demo_test.go $T/demo_test.go; cp $D/demo_path.txt $T/demo_path.txt; cp $D/README.md $T/AUTHOR_README.md
python3 - "$T" "$P" "$RULES" "$INIT" "$NEEDS" <<'PY'
import json,sys,re
t,p,rules,init,needs=sys.argv[1:6]; p=p[:3]
readme=open(t+'/AUTHOR_README.md').read()
first=[l.strip('# ').strip() for l in readme.splitlines() if l.strip()][:1]
m={"property":p,"expect":"fire" if rules!='-' else "miss","rules":[r for r in rules.split(',') if r and r!='-'],
   "desc":(first[0] if first else '')[:300],"needs":needs,"author":"independent sub-agent (given only the property record and a scratch worktree)",
   "initially":init,
   "verified":["tools/seeddemo.sh: demonstration passes on the unchanged tree, fails with the change, suite (without the demo) still passes with the change apart from BASELINE's known-flaky tests",
               "tools/seedcheck.sh: git -C /repo apply patch.diff; bin/vcheck -prop all; git -C /repo checkout -- ."]}
json.dump(m,open(t+'/meta.json','w'),indent=1,ensure_ascii=False)
PY
echo kept $T
