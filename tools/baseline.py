#!/usr/bin/env python3
"""Run /repo's own suite (guard off; there are no hooks) and compare with BASELINE.json's stable set.
Not a check: used by hand after fix: commits and registered as MANIFEST.hooks.baseline_off_cmd."""
import json, subprocess, sys, os
repo = sys.argv[1] if len(sys.argv) > 1 else "/repo"
env = dict(os.environ, GOFLAGS="-mod=mod", GOPROXY="off")
env.pop("GOSUMDB", None); env.pop("GOTOOLCHAIN", None)
p = subprocess.run(["go", "test", "-json", "-vet=off", "-count=1", "-timeout", "25m", "./..."],
                   cwd=repo, env=env, capture_output=True, text=True)
res = {}
for line in p.stdout.splitlines():
    try: e = json.loads(line)
    except Exception: continue
    if e.get("Test") and e.get("Action") in ("pass", "fail", "skip"):
        res[e["Package"] + "::" + e["Test"]] = e["Action"]
stable = json.load(open("/root/.vp/BASELINE.json"))["stable_pass"]
bad = [t for t in stable if res.get(t) != "pass"]
print(f"tests seen={len(res)} passed={sum(1 for v in res.values() if v=='pass')} failed={[k for k,v in res.items() if v=='fail']}")
print(f"stable={len(stable)} stable_not_passing={bad}")
sys.exit(1 if bad else 0)
