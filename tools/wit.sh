#!/bin/bash
# Witness workflow (scratch copies live outside /repo and /verif and are removed after use).
#   wit.sh new                      fresh scratch copy of /repo's working tree at $SCR
#   wit.sh save <name> <prop> <fire|silent> <rules,comma> <desc>   diff scratch vs /repo -> /verif/witness/<name>/
#   wit.sh try <prop>               run vcheck on the scratch copy
set -e
SCR=${SCR:-/tmp/vw/scratch}
cmd=$1; shift || true
case "$cmd" in
 new)
  rm -rf "$SCR"; mkdir -p "$SCR"; rsync -a --exclude .git /repo/ "$SCR"/ ;;
 try)
  /verif/bin/vcheck -repo "$SCR" -no-evidence -prop "$1" | grep -v -E '^(loaded)' | grep -E '^   (violated|undecided)|^VIOLATION|^property .* [1-9][0-9]* violations' | cut -c1-400 || true ;;
 save)
  name=$1; prop=$2; expect=$3; rules=$4; desc=$5
  d=/verif/witness/$name; mkdir -p "$d"
  (cd /tmp/vw && rm -rf a b && mkdir a b && rsync -a --exclude .git /repo/ a/ && rsync -a "$SCR"/ b/ && (diff -ruN a b > "$d/patch.diff" || true); rm -rf a b)
  python3 - "$d" "$prop" "$expect" "$rules" "$desc" <<'P'
import json,sys
d,prop,expect,rules,desc=sys.argv[1:6]
json.dump({"property":prop,"expect":expect,"rules":[r for r in rules.split(",") if r],"desc":desc},open(d+"/meta.json","w"),indent=1)
P
  echo "saved $d ($(grep -c '^[-+][^-+]' $d/patch.diff) changed lines)"
  /verif/bin/vcheck -repo "$SCR" -no-evidence -prop "$prop" | grep -E '^   (violated|undecided)|^property' | cut -c1-300 || true
  rm -rf "$SCR"; mkdir -p "$SCR"; rsync -a --exclude .git /repo/ "$SCR"/ ;;
 *) echo "usage: wit.sh new|try|save"; exit 2;;
esac
