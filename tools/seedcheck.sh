#!/bin/bash
# seedcheck.sh <Cxx> <A|B> — apply a seeded change to /repo, run all checks, undo. Prints which properties/rules fire.
set -e
P=$1; V=$2; D=/tmp/seed/$P.out/$V
cd /repo && git status --short | grep -q . && { echo "/repo not clean"; exit 2; }
git -C /repo apply $D/patch.diff
trap 'git -C /repo checkout -- .' EXIT
/verif/bin/vcheck -repo /repo -no-evidence -prop all 2>&1 | grep -E '^   (violated|undecided)|^property .* [1-9][0-9]* violations' | cut -c1-330
