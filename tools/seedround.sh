#!/bin/bash
# seedround.sh <suffix> <Cxx...> — for each finished seeding directory /tmp/seed/<Cxx><suffix>.out: fired rule ids per change (scratch copy)
S=$1; shift
for P in "$@"; do for V in A B; do [ -f /tmp/seed/$P$S.out/$V/patch.diff ] && echo "$P$S $V: $(/verif/tools/seedrules.sh $P$S $V)"; done; done
