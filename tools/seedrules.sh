#!/bin/bash
# seedrules.sh <CxxrN> <A|B> — rule ids (all properties) that fire on a scratch copy with the seeded change
P=$1; V=$2; W=/tmp/vw/seedrules_$P$V; rm -rf $W; mkdir -p $W; rsync -a --exclude .git /repo/ $W/
(cd $W && patch -p1 -s --no-backup-if-mismatch < /tmp/seed/$P.out/$V/patch.diff) || { echo "PATCH FAILED"; rm -rf $W; exit 1; }
/verif/bin/vcheck -repo $W -no-evidence -prop all 2>&1 | grep -E '^rule ' | grep -v 'violated/undecided=0' | awk '{print $2}' | paste -sd' '
rm -rf $W
