#!/bin/bash
# seeddemo.sh <Cxx> <A|B> [runs] — confirm a seeded change's demonstration in a scratch worktree: fails with the change, passes without.
P=$1; V=$2; N=${3:-1}; D=/tmp/seed/$P.out/$V; W=/tmp/seedverify/$P$V
rm -rf $W; mkdir -p /tmp/seedverify; rsync -a --exclude .git /repo/ $W/
dp=$(cat $D/demo_path.txt | tr -d '\n '); pkg=./$(dirname $dp)
cp $D/demo_test.go $W/$dp
name="($(grep -o -E 'func (Test[A-Za-z0-9_]+)' $W/$dp | awk '{print $2}' | paste -sd'|'))"
cd $W
echo "== without change ($pkg $name)"; for i in $(seq $N); do GOFLAGS=-mod=mod GOPROXY=off timeout 300 go test -vet=off -count=1 -run "^$name\$" $pkg 2>&1 | tail -1; done
patch -p1 -s < $D/patch.diff || { echo "PATCH FAILED"; exit 1; }
echo "== with change"; for i in $(seq $N); do GOFLAGS=-mod=mod GOPROXY=off timeout 300 go test -vet=off -count=1 -run "^$name\$" $pkg 2>&1 | tail -1; done
echo "== suite with change (without the demo)"; rm $W/$dp; unshare -n sh -c 'ip link set lo up && GOFLAGS=-mod=mod GOPROXY=off go test -vet=off -count=1 ./... 2>&1' | grep -E '^\s*(FAIL|--- FAIL)' | head -8; echo suite-done
cd /; rm -rf $W
