#!/usr/bin/env python3
"""ed.py <file-relative-to-scratch> <old> <new> [count]  — exact replace in the scratch copy (fails if old is absent)."""
import sys,os
scr=os.environ.get("SCR","/tmp/vw/scratch")
f,old,new=sys.argv[1:4]
cnt=int(sys.argv[4]) if len(sys.argv)>4 else 1
p=os.path.join(scr,f); s=open(p).read()
old=old.encode().decode('unicode_escape') if '\\n' in old or '\\t' in old else old
new=new.encode().decode('unicode_escape') if '\\n' in new or '\\t' in new else new
if s.count(old)<1: sys.exit(f"old text not found in {f}")
if cnt==1 and s.count(old)!=1: sys.exit(f"old text occurs {s.count(old)} times in {f}")
open(p,"w").write(s.replace(old,new) if cnt!=1 else s.replace(old,new,1))
