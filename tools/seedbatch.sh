#!/bin/bash
# seedbatch.sh <Cxx:V> ... — run seeddemo.sh for each, sequentially, output in /tmp/seed/<Cxx><V>.demo
for x in "$@"; do P=${x%%:*}; V=${x##*:}; /verif/tools/seeddemo.sh $P $V > /tmp/seed/$P$V.demo 2>&1; done
