#!/usr/bin/env python3
# Generate docs/design_seeded.md (§5.3) from /verif/seeded/*/meta.json.
import json, glob, os
rows = []
for d in sorted(glob.glob('/verif/seeded/*/')):
    m = json.load(open(d + 'meta.json'))
    rows.append((m['property'], os.path.basename(d.rstrip('/')), m))
rows.sort()
n = len(rows)
init_miss = [r for r in rows if r[2].get('initially') == 'missed']
still = [r for r in rows if r[2].get('expect') == 'miss']
out = []
out.append('### 5.3 Independently seeded breaking changes\n')
out.append(f'''For every property a fresh sub-agent received only the property record and its own
scratch worktree of `/repo` (nothing from `/verif`) and wrote two source changes that
break the property, compile, pass the existing suite and need something specific to
manifest, each with a demonstration test. Every change was re-verified here
(`tools/seeddemo.sh`: demonstration passes on the unchanged tree, fails with the change;
the suite, run in a private network namespace, still passes with the change) before it
was kept as `/verif/seeded/<id>/{{patch.diff, demo_test.go, demo_path.txt, AUTHOR_README.md,
meta.json}}`. `tools/seedcheck.sh` applies a change to `/repo`, runs all checks and undoes
it; the thorough tier / `vcheck selftest` replays all of them on scratch copies.

Result: **{n} changes, {n - len(init_miss)} caught by the checks as they were, {len(init_miss)} initially missed**.
Each miss was analysed: where a structural necessary condition exists that is visible in
the code and does not fire on behaviour-preserving edits, a rule was added (listed in
5.1) and the change now fires; **{len(still)} remain(s) a documented miss** because the broken
clause is arithmetic, or needs a fact outside the structure the rules look at (a panic
under a held lock, a `break` binding to the wrong statement in the public package, a
mutating call on a decoded value in an unregistered helper, a registry invariant — each
explained in 5.1); no rule short of executing the code separates them from valid edits:

''')
for p, name, m in still:
    out.append(f'* `{name}` ({p}) — {m.get("desc","")[:220]} Needs: {m.get("needs","")}. ')
    if 'c02' in name:
        out.append('  The growth copy of the ring buffer rotates the order when `0 < head < mod-1`; any rule on the shape of the copy loop would equally fire on a correct two-`copy` rewrite.\n')
    elif 'c16' in name:
        out.append('  `Compare` decides "other has entries v lacks" by comparing `len(other.m)` with a count of shared keys, which is wrong only for explicit-zero entries; the neighbouring *valid* optimisation (skip the second pass when the counts are equal) has the same shape, so a rule on `len` comparisons would be a false alarm in waiting.\n')
out.append('\n| property | seeded change | needs, to manifest | checks as they were | now fires | also caught by |\n|---|---|---|---|---|---|\n')
for p, name, m in rows:
    fires = ', '.join(m.get('rules', [])) if m.get('expect') == 'fire' else '— (documented miss)'
    other = ', '.join(m.get('also_caught_by_other_properties', [])) or ''
    out.append(f'| {p} | `{name}` | {m.get("needs","")} | {m.get("initially","?")} | {fires} | {other} |\n')
out.append('''
One seeding agent (C15) also reported a behaviour of the *unchanged* tree that breaks
its property: the failure result of PipeTo could not be encoded for a remote forwarder
without a user codec. It was confirmed with a throw-away test, turned into rule C15.R5
and repaired (F30, §2).
''')
# §5.4: behaviour-preserving refactorings
refs = []
for d in sorted(glob.glob('/verif/refactor/*/')):
    m = json.load(open(d + 'meta.json'))
    refs.append((os.path.basename(d.rstrip('/')), m))
alarmed = [r for r in refs if r[1].get('initially') == 'alarm']
out.append(f"""
### 5.4 Independently written behaviour-preserving refactorings

The other direction: for every property a fresh sub-agent (same information as above,
nothing from `/verif`) wrote four refactorings of the code that implements it —
extract / inline a helper, consistent renames, control-flow restructuring, loop forms,
closures into methods, named locals — each verified by its author to build and to pass
the suite, and asked to preserve behaviour exactly (same operations under the same
locks, same atomics in the same order, same messages, same wire format). All checks
were run on each (`tools/refcheck.sh`). A fourth batch (`*-m1..m4`, 80 more) asked for
**maintenance edits** instead of pure refactorings — added logging, counters with
accessors, defensive checks, small new features whose default keeps today's behaviour,
constants, micro-optimisations, function splits — i.e. code that *evolves* while the
property still holds. A fifth batch (`*-n1..n4`, 56 more, for the 14 properties whose rules were newest at the time) asked for maintenance edits concentrated on the functions the newest rules look at. Result: **{len(refs)} edits, {len(alarmed)} of them
initially raised a false alarm** in some property; every alarm was traced to a limitation
of the machinery and removed (5.2), none by weakening a rule that the breaking witnesses
need (the full self-test was re-run after each correction) — with {len([r for r in refs if r[1].get('expect')=='alarm'])} documented exception(s)
(`expect: alarm` in its meta.json: a defensive guard whose deadness needs a field
invariant the checker does not derive). The three independent cumulative
combinations of the first 80 refactorings (46 + 20 + 6 patches applied together) are
silent as well. All are kept under `/verif/refactor/<id>/` and replayed by the thorough
tier: the properties listed must stay silent. One maintenance-edit author (C07) remarked
on a defect of the unchanged tree while stress-testing his edits; it was confirmed, repaired
and turned into a rule (F35, §2).

| refactoring | written for | properties that initially alarmed | what it does |
|---|---|---|---|
""")
for name, m in refs:
    out.append(f"| `{name}` | {m['property']} | {', '.join(m.get('also', [])) or ('—' if m.get('initially') != 'alarm' else m['property'])} | {m.get('desc','')[:160].replace('|','/')} |\n")
open('/verif/docs/design_seeded.md', 'w').write(''.join(out))
print('rows', n, 'initially missed', len(init_miss), 'still missed', len(still))
