#!/usr/bin/env python3
"""Generate /verif/MANIFEST.json from the table below (kept next to the code so the manifest stays valid as rules land)."""
import json, os, subprocess
V = "/verif"
props = [json.loads(l) for l in open(f"{V}/properties.jsonl")]
# property -> (technique, level text, level note, design ref); absent => not_applicable with reason
CLAIMED = json.load(open(f"{V}/tools/claims.json"))
fix_commits = subprocess.run(["git","-C","/repo","log","--format=%h %s","--grep=^fix:"],capture_output=True,text=True).stdout.strip().splitlines()
checks, na = [], []
for p in props:
    pid = p["id"]
    c = CLAIMED.get(pid)
    if not c or c.get("na"):
        na.append({"property_id": pid, "reason": (c or {}).get("na", "static rules for this property are not implemented yet (see DESIGN.md §3); not claimed")})
        continue
    checks.append({
        "property_id": pid,
        "quick_cmd": f"./run.sh {pid} quick",
        "thorough_cmd": f"./run.sh {pid} thorough",
        "evidence_file": f"/verif/evidence/{pid}.json",
        "replay_cmd_template": "bin/vcheck explain {path}",
        "engine": "vcheck",
        "level_claimed": {"category": "other", "text": c["text"], "design_ref": f"DESIGN.md §3 {pid}"},
        "level_note": c["note"],
        "technique": c["technique"],
    })
m = {
    "version": 1,
    "setup_cmd": "./setup.sh",
    "hooks": {
        "guard": "verif",
        "enable": "none: the checks execute no vivid code, so /repo carries no hooks; the tag name is reserved for form only",
        "baseline_off_cmd": "python3 /verif/tools/baseline.py /repo",
        "source_commits": [],
        "add_only": True,
    },
    "engines": [{"name": "vcheck", "path": "/verif/checker", "serves_properties": [c["property_id"] for c in checks],
                 "kind_free_text": "repository-specific static analyser over go/packages + go/ssa + VTA call graph (x/tools v0.50.0, go1.26.8): dominance / must-pass-through / lock-set / wire-signature / taint rules, one obligation per rule instance"}],
    "checks": checks,
    "not_applicable": na,
    "notes": "Static analysis only: no check runs vivid code or its tests. Genuine defects found on the pinned tree were repaired by unguarded fix: commits in /repo (" + "; ".join(fix_commits[::-1]) + "); see /verif/known_findings.json and DESIGN.md §2.",
}
json.dump(m, open(f"{V}/MANIFEST.json", "w"), indent=1, ensure_ascii=False)
print(f"MANIFEST: {len(checks)} checks, {len(na)} not_applicable")
