#!/bin/bash
# all.sh <quick|thorough> — run every registered check, summarise
cd /verif
for p in $(python3 -c "import json; print(' '.join(c['property_id'] for c in json.load(open('MANIFEST.json'))['checks']))"); do
  out=$(./run.sh $p ${1:-quick} 2>&1); rc=$?
  echo "$p rc=$rc $(echo "$out" | grep -E '^property' | tail -1) $(echo "$out" | grep -c '^selftest:') selftest-notes"
  echo "$out" | grep -E '^VIOLATION|^selftest:' | head -5
done
