#!/bin/bash
# seedtry.sh <CxxrN> <A|B> [props] — like seedcheck.sh but on a scratch copy (safe while a demo batch reads /repo)
P=$1; V=$2; W=/tmp/vw/seedtry_$P$V; rm -rf $W; mkdir -p $W; rsync -a --exclude .git /repo/ $W/
(cd $W && patch -p1 -s --no-backup-if-mismatch < /tmp/seed/$P.out/$V/patch.diff) || { echo "PATCH FAILED"; rm -rf $W; exit 1; }
/verif/bin/vcheck -repo $W -no-evidence -prop ${3:-all} 2>&1 | grep -E '^   (violated|undecided)|^property .* [1-9][0-9]* violations' | cut -c1-330
rm -rf $W
