#!/bin/bash
# rebasepatch.sh <witness|seeded|refactor>/<name> — after a fix: commit in /repo made a kept patch stale: the patch was re-done by hand in the
# scratch copy ($SCR, from `wit.sh new`); store the new diff, keep the original as patch.original.diff (once).
set -e
SCR=${SCR:-/tmp/vw/scratch}; d=/verif/$1
[ -f $d/patch.original.diff ] || cp $d/patch.diff $d/patch.original.diff
(cd /tmp/vw && rm -rf a b && mkdir a b && rsync -a --exclude .git /repo/ a/ && rsync -a "$SCR"/ b/ && (diff -ruN a b > "$d/patch.diff" || true); rm -rf a b)
echo "rebased $d ($(grep -c '^[-+][^-+]' $d/patch.diff) changed lines)"
