#!/bin/bash
# seedreverify.sh <seeded-name> — after a rebase of a kept seed: demonstration passes on /repo's tree, fails with the kept patch, suite passes with it
N=$1; D=/verif/seeded/$N; W=/tmp/seedverify/re_$N
rm -rf $W; mkdir -p /tmp/seedverify; rsync -a --exclude .git /repo/ $W/
dp=$(cat $D/demo_path.txt | tr -d '\n '); pkg=./$(dirname $dp); cp $D/demo_test.go $W/$dp
name="($(grep -o -E 'func (Test[A-Za-z0-9_]+)' $W/$dp | awk '{print $2}' | paste -sd'|'))"
cd $W
echo "== without: $(GOFLAGS=-mod=mod GOPROXY=off timeout 300 go test -vet=off -count=1 -run "^$name\$" $pkg 2>&1 | tail -1 | cut -c1-80)"
patch -p1 -s < $D/patch.diff || { echo "PATCH FAILED"; exit 1; }
echo "== with: $(GOFLAGS=-mod=mod GOPROXY=off timeout 300 go test -vet=off -count=1 -run "^$name\$" $pkg 2>&1 | tail -1 | cut -c1-80)"
rm $W/$dp
echo "== suite: $(unshare -n sh -c 'ip link set lo up && GOFLAGS=-mod=mod GOPROXY=off go test -vet=off -count=1 ./... 2>&1' | grep -E '^\s*(FAIL|--- FAIL)' | head -6 | tr '\n' ' ')"
cd /; rm -rf $W
