#!/bin/bash
# refkeep.sh <Cxx> <K> <name> <also-props,comma|-> <initially: silent|alarm> — keep a behaviour-preserving refactoring written by an independent
# sub-agent as /verif/refactor/<name>/{patch.diff,AUTHOR_README.md,meta.json}; the self-test expects every listed property to stay silent.
P=$1; K=$2; NAME=$3; ALSO=$4; INIT=$5; D=${REFDIR:-/tmp/refac}/$P.out/$K; T=/verif/refactor/$NAME
mkdir -p $T; cp $D/patch.diff $T/patch.diff; cp $D/README.md $T/AUTHOR_README.md
python3 - "$T" "$P" "$ALSO" "$INIT" <<'PY'
import json,sys
t,p,also,init=sys.argv[1:5]
readme=open(t+'/AUTHOR_README.md').read()
first=[l.strip('# ').strip() for l in readme.splitlines() if l.strip()][:2]
m={"property":p,"expect":"silent","rules":[],"desc":(" — ".join(first))[:300],"also":[a for a in also.split(',') if a and a!='-' and a!=p],
   "author":"independent sub-agent (given only the property record and a scratch worktree; asked for a behaviour-preserving refactoring, build+suite verified by the author)",
   "initially":init}
json.dump(m,open(t+'/meta.json','w'),indent=1,ensure_ascii=False)
PY
echo kept $T
