package actor_test

import (
	"fmt"
	"testing"
	"time"

	"github.com/kercylan98/vivid"
	"github.com/kercylan98/vivid/internal/actor"
	"github.com/kercylan98/vivid/pkg/ves"
)

// seedBObserver spawns an actor that forwards every DeathLetterEvent carrying a
// string payload to the returned channel.
func seedBObserver(t *testing.T, system *actor.TestSystem) chan string {
	t.Helper()
	subscribed := make(chan struct{})
	deadLetters := make(chan string, 256)
	_, err := system.ActorOf(vivid.ActorFN(func(ctx vivid.ActorContext) {
		switch m := ctx.Message().(type) {
		case *vivid.OnLaunch:
			ctx.EventStream().Subscribe(ctx, ves.DeathLetterEvent{})
			close(subscribed)
		case ves.DeathLetterEvent:
			if s, ok := m.Envelope.Message().(string); ok {
				deadLetters <- s
			}
		}
	}), vivid.WithActorName("seed-b-observer"))
	if err != nil {
		t.Fatal(err)
	}
	<-subscribed
	return deadLetters
}

// seedBAccount waits until every message in msgs has been seen by the behaviour
// or dead-lettered, then checks that each of them ended in exactly one place.
func seedBAccount(t *testing.T, msgs []string, processed, deadLetters chan string) {
	t.Helper()
	type tally struct{ processed, dead int }
	seen := map[string]*tally{}
	for _, m := range msgs {
		seen[m] = &tally{}
	}
	settled := func() bool {
		for _, v := range seen {
			if v.processed+v.dead == 0 {
				return false
			}
		}
		return true
	}
	timeout := time.After(3 * time.Second)
	for !settled() {
		select {
		case s := <-processed:
			if v, ok := seen[s]; ok {
				v.processed++
			}
		case s := <-deadLetters:
			if v, ok := seen[s]; ok {
				v.dead++
			}
		case <-timeout:
			for _, m := range msgs {
				if v := seen[m]; v.processed+v.dead == 0 {
					t.Errorf("message %q sent to a RUNNING actor was neither processed nor dead-lettered (silently lost)", m)
				}
			}
			return
		}
	}
	// leave a moment for duplicates
	extra := time.After(200 * time.Millisecond)
	for done := false; !done; {
		select {
		case s := <-processed:
			if v, ok := seen[s]; ok {
				v.processed++
			}
		case s := <-deadLetters:
			if v, ok := seen[s]; ok {
				v.dead++
			}
		case <-extra:
			done = true
		}
	}
	for _, m := range msgs {
		if v := seen[m]; v.processed+v.dead != 1 {
			t.Errorf("message %q: processed %d times, dead-lettered %d times; want exactly one outcome", m, v.processed, v.dead)
		}
	}
}

func seedBWorker(processed chan string, launched chan struct{}) vivid.Actor {
	return vivid.ActorFN(func(ctx vivid.ActorContext) {
		switch m := ctx.Message().(type) {
		case *vivid.OnLaunch:
			if launched != nil {
				close(launched)
			}
		case string:
			processed <- m
		}
	})
}

// A reference to a well-known path is parsed from a string BEFORE the actor
// exists and is used once (a first message sent too early).
// The actor is then spawned under that path and the very same reference object is
// used again: the actor is running, so its behaviour must see the messages.
func TestSeedB_RefParsedBeforeSpawn(t *testing.T) {
	system := actor.NewTestSystem(t)
	defer func() { _ = system.Stop() }()
	deadLetters := seedBObserver(t, system)

	early, err := system.ParseRef(fmt.Sprintf("%s/seed-b-service", system.Ref().GetAddress()))
	if err != nil {
		t.Fatal(err)
	}

	// a first message against the not yet existing service (outcome not asserted here:
	// nobody lives at that path yet)
	system.Tell(early, "probe")
	time.Sleep(50 * time.Millisecond)

	processed := make(chan string, 256)
	launched := make(chan struct{})
	spawnedRef, err := system.ActorOf(seedBWorker(processed, launched), vivid.WithActorName("seed-b-service"))
	if err != nil {
		t.Fatal(err)
	}
	<-launched
	if !spawnedRef.Equals(early) {
		t.Fatalf("setup: parsed ref %s does not denote the spawned actor %s", early, spawnedRef)
	}

	// control: the reference returned by ActorOf reaches the actor
	system.Tell(spawnedRef, "control")
	seedBAccount(t, []string{"control"}, processed, deadLetters)

	// the reference parsed earlier denotes the same, running, actor
	msgs := []string{"work-0", "work-1", "work-2"}
	for _, m := range msgs {
		system.Tell(early, m)
	}
	seedBAccount(t, msgs, processed, deadLetters)
}

// Same mechanism, different history: a named actor terminates, a cloned
// reference is used while nobody lives at that path, the name is re-used for a
// fresh actor, and the same cloned reference is used again.
func TestSeedB_ClonedRefAcrossRespawn(t *testing.T) {
	system := actor.NewTestSystem(t)
	defer func() { _ = system.Stop() }()
	deadLetters := seedBObserver(t, system)

	killed := make(chan struct{})
	first, err := system.ActorOf(vivid.ActorFN(func(ctx vivid.ActorContext) {
		switch m := ctx.Message().(type) {
		case *vivid.OnKilled:
			if m.Ref.Equals(ctx.Ref()) {
				close(killed)
			}
		}
	}), vivid.WithActorName("seed-b-respawn"))
	if err != nil {
		t.Fatal(err)
	}
	clone := first.Clone()

	system.Kill(first, false, "seed B: first incarnation stops")
	select {
	case <-killed:
	case <-time.After(2 * time.Second):
		t.Fatal("setup: first incarnation did not terminate")
	}

	// wait until the path is free again (the registry entry is removed during termination)
	deadline := time.Now().Add(2 * time.Second)
	for {
		if _, err := system.FindActor(first.String()); err != nil {
			break
		}
		if time.Now().After(deadline) {
			t.Fatal("setup: terminated actor still registered")
		}
		time.Sleep(time.Millisecond)
	}

	// a message through the clone while nobody is there (outcome not asserted here)
	system.Tell(clone, "between-incarnations")
	time.Sleep(50 * time.Millisecond)

	processed := make(chan string, 256)
	launched := make(chan struct{})
	second, err := system.ActorOf(seedBWorker(processed, launched), vivid.WithActorName("seed-b-respawn"))
	if err != nil {
		t.Fatal(err)
	}
	<-launched
	if !second.Equals(clone) {
		t.Fatalf("setup: clone %s does not denote the new incarnation %s", clone, second)
	}

	msgs := []string{"again-0", "again-1", "again-2"}
	for _, m := range msgs {
		system.Tell(clone, m)
	}
	seedBAccount(t, msgs, processed, deadLetters)
}
