package actor_test

import (
	"testing"
	"time"

	"github.com/kercylan98/vivid"
	"github.com/kercylan98/vivid/internal/actor"
)

// One-for-all Stop must reach the supervisor's children and no other actor.
//
// Tree:   root ── bystander
//             └── supervisor (one-for-all, Stop) ── failing
//                                                └── sibling
//
// The supervisor is held inside a user message while (1) `failing` panics and
// (2) afterwards `sibling` is killed and fully released. The supervisor's system
// queue is then [failure report, OnKilled(sibling)]: when the failure is
// supervised, the children snapshot still names the already-dead sibling.
// The decision for that dead sibling must simply be dropped (dead letter); it
// must never land on an unrelated actor. `bystander` (a top-level actor that is
// not part of the supervised subtree) has to stay alive and responsive.
func TestSeedB_OneForAllDecisionReachesNoOtherActor(t *testing.T) {
	system := actor.NewTestSystem(t)
	defer func() { _ = system.Stop() }()

	var (
		refsC           = make(chan [2]vivid.ActorRef, 1)
		holding         = make(chan struct{})
		hold            = make(chan struct{})
		failingNow      = make(chan struct{})
		decided         = make(chan struct{})
		failingKilled   = make(chan struct{})
		bystanderKilled = make(chan struct{})
	)

	bystander, err := system.ActorOf(vivid.ActorFN(func(ctx vivid.ActorContext) {
		switch ctx.Message().(type) {
		case *vivid.OnKill:
			close(bystanderKilled)
		}
	}), vivid.WithActorName("bystander"))
	if err != nil {
		t.Fatal(err)
	}

	_, err = system.ActorOf(vivid.ActorFN(func(ctx vivid.ActorContext) {
		switch m := ctx.Message().(type) {
		case *vivid.OnLaunch:
			failing, err := ctx.ActorOf(vivid.ActorFN(func(ctx vivid.ActorContext) {
				switch m := ctx.Message().(type) {
				case string:
					if m == "boom" {
						close(failingNow)
						panic("boom")
					}
				case *vivid.OnKilled:
					if m.Ref.Equals(ctx.Ref()) {
						close(failingKilled)
					}
				}
			}), vivid.WithActorName("failing"))
			if err != nil {
				t.Error(err)
				return
			}
			sibling, err := ctx.ActorOf(vivid.ActorFN(func(ctx vivid.ActorContext) {}), vivid.WithActorName("sibling"))
			if err != nil {
				t.Error(err)
				return
			}
			refsC <- [2]vivid.ActorRef{failing, sibling}
		case string:
			if m == "hold" {
				close(holding)
				<-hold
			}
		}
	}), vivid.WithActorName("supervisor"), vivid.WithActorSupervisionStrategy(vivid.OneForAllStrategy(vivid.SupervisionStrategyDecisionMakerFN(func(ctx vivid.SupervisionContext) (vivid.SupervisionDecision, string) {
		defer close(decided)
		return vivid.SupervisionDecisionStop, "stop all"
	}))))
	if err != nil {
		t.Fatal(err)
	}

	var failing, sibling vivid.ActorRef
	select {
	case refs := <-refsC:
		failing, sibling = refs[0], refs[1]
	case <-time.After(3 * time.Second):
		t.Fatal("children not spawned")
	}
	supervisor, err := system.FindActor("localhost/supervisor")
	if err != nil {
		t.Fatal(err)
	}

	// 1. keep the supervisor busy so that its system queue accumulates
	system.Tell(supervisor, "hold")
	select {
	case <-holding:
	case <-time.After(3 * time.Second):
		t.Fatal("supervisor did not start holding")
	}

	// 2. the child fails: its failure report is queued at the supervisor
	system.Tell(failing, "boom")
	select {
	case <-failingNow:
	case <-time.After(3 * time.Second):
		t.Fatal("child did not fail")
	}
	time.Sleep(100 * time.Millisecond)

	// 3. the sibling dies and is fully released; its death notice is queued BEHIND the failure report
	system.Kill(sibling, false, "sibling leaves")
	deadline := time.Now().Add(3 * time.Second)
	for {
		if _, err := system.FindActor(sibling.String()); err != nil {
			break
		}
		if time.Now().After(deadline) {
			t.Fatal("sibling did not terminate")
		}
		time.Sleep(5 * time.Millisecond)
	}
	time.Sleep(50 * time.Millisecond)

	// 4. let the supervisor handle the failure
	close(hold)
	select {
	case <-decided:
	case <-time.After(3 * time.Second):
		t.Fatal("supervisor was never consulted")
	}
	select {
	case <-failingKilled:
	case <-time.After(3 * time.Second):
		t.Fatal("the failing child was not stopped")
	}

	// 5. nobody outside the supervised subtree may be affected
	select {
	case <-bystanderKilled:
		t.Fatal("an actor outside the supervisor's children (top-level bystander) was killed by the one-for-all Stop decision")
	case <-time.After(500 * time.Millisecond):
	}
	if _, err := system.Ping(bystander, time.Second); err != nil {
		t.Fatalf("bystander is no longer responsive after the supervision round: %v", err)
	}
	if _, err := system.FindActor(supervisor.String()); err != nil {
		t.Fatalf("the supervisor itself disappeared after a Stop aimed at its children: %v", err)
	}
}
