#!/bin/bash
# Build the checker offline from /verif/checker (module cache only).
set -e
cd "$(dirname "$0")/checker"
export GOTOOLCHAIN=local PATH=/opt/veriftools/go1.26.8/bin:$PATH GOFLAGS=-mod=mod GOPROXY=off GOWORK=off
unset GOSUMDB || true
mkdir -p ../bin ../evidence ../out
go build -o ../bin/vcheck .
